"""Generate DESIGN.md section 12 (validation against independently written changes) from seeded/RESULTS.json,
seeded/HISTORY.json and twins_indep/RESULTS.json.   usage: gen_design_12.py > /tmp/section12.md"""
import json
import os
from collections import Counter, defaultdict

V = '/verif'
seed = json.load(open(f'{V}/seeded/RESULTS.json'))
hist = json.load(open(f'{V}/seeded/HISTORY.json'))
tw = json.load(open(f'{V}/twins_indep/RESULTS.json'))


def batch_of(sid):
    return sid.split('-')[1][0]


def meta(kind, sid):
    try:
        return json.load(open(f'{V}/{kind}/{sid}/meta.json'))
    except Exception:
        return {}


def short(txt, n):
    txt = (txt or '').replace('|', '/').replace('\n', ' ')
    return txt if len(txt) <= n else txt[:n - 1].rsplit(' ', 1)[0] + ' …'


out = []
w = out.append
w('## 12. Validation against independently written changes\n')
w('Two kinds of change were written by fresh sub-agents that were given **only the text of one property** and a private scratch '
  'git worktree of `/repo` under `/tmp` (nothing from `/verif`, never `/repo` itself): *seeded defects* (a change that breaks the '
  'property while the package still imports and the 66 baseline tests still pass, with a demonstration script) and '
  '*behaviour-preserving refactorings* ("twins", with a differential test against the original sources). I kept a change only '
  'after confirming it myself in a scratch worktree: the patch applies to the pinned tree, the baseline suite passes with it, the '
  'demonstration exits 0 on the original code and non-zero on the changed code (seeds) / the differential test exits 0 (twins). '
  'Kept changes live in `/verif/seeded/<id>/` and `/verif/twins_indep/<id>/` (`patch.diff`, `demo.py` or `equiv.py`, `meta.json`). '
  'They are never applied to `/repo` by a registered check: `tools/seedeval.py` and `tools/twineval.py` compute the patched '
  'sources in memory and run the 20 property checks on them (`Project(overrides=...)`); the thorough tier of each property '
  'replays its slice the same way. The worktrees were removed after use.\n')

w('### 12.1 Seeded defects: generalisation first, strengthening second\n')
w('Each batch was written against the checks *as they stood*, evaluated once (first evaluation = how well the rules generalise to '
  'defects nobody had seen), and only then used to strengthen the rules. Strengthening never meant matching the patch: a missed '
  'change was turned into a rule only where a general structural statement existed (listed in §11.5); where none exists the change '
  'stays missed and is listed below. "any" = some property check reports a VIOLATION; "target" = the check of the property the '
  'change was written against reports it; undecided (exit 2) counts as not detected.\n')
w('| batch | written against | confirmed | first evaluation (any / target) | after strengthening (any / target) |')
w('|---|---|---|---|---|')
by_batch = defaultdict(list)
for sid in seed:
    by_batch[batch_of(sid)].append(sid)
for b in sorted(by_batch):
    ids = by_batch[b]
    h = hist.get(f'batch_{b}', {})
    fe = h.get('first_evaluation', {})
    anyc = sum(1 for s in ids if seed[s].get('caught_by'))
    tgt = sum(1 for s in ids if seed[s].get('target') in (seed[s].get('caught_by') or []))
    first = f"{fe.get('any', '?')}/{fe.get('present', len(ids))}" + (f" / {fe['target']}/{fe.get('present', len(ids))}" if 'target' in fe else '')
    w(f"| {b} | {short(h.get('written_against', ''), 150)} | {len(ids)} | {first} | {anyc}/{len(ids)} / {tgt}/{len(ids)} |")
tot = len(seed)
w(f"| all | | {tot} | | {sum(1 for s in seed if seed[s].get('caught_by'))}/{tot} / "
  f"{sum(1 for s in seed if seed[s].get('target') in (seed[s].get('caught_by') or []))}/{tot} |")
w('')
missed = [s for s in sorted(seed) if not seed[s].get('caught_by')]
w(f'Not reported by any check on the final rules ({len(missed)}):\n')
for s in missed:
    und = seed[s].get('undecided') or []
    w(f"* **{s}** — {short(meta('seeded', s).get('summary'), 260)}" + (f" *(ends undecided, exit 2, in {', '.join(und)})*" if und else ''))
w('')
w('These are misses by design limits, not oversights: they either need value reasoning no structural rule here expresses (a data '
  'dependent early exit that is sometimes a correct optimisation, a lost guard in string labelling, a tolerance in a float '
  'comparison), or the interplay of three individually harmless edits, or pymatgen internals outside the model.\n')

w('### 12.2 Which check catches which change\n')
w('Per property: the seeded changes written against it, and the rule of the reporting check. A change is often reported by several '
  'checks because properties share code (C03/C04 share the event table, C01/C06/C14 the displacement pipeline, C07 scans every '
  'analysis module for kind errors); the table names all of them.\n')
w('| change | what was changed (agent summary, shortened) | reported by (rule of the target check or of the first reporting check) |')
w('|---|---|---|')
for sid in sorted(seed):
    r = seed[sid]
    tgt = r.get('target')
    rep = r.get('report', {})
    by = r.get('caught_by') or []
    first_rule = ''
    for p in ([tgt] if tgt in by else []) + [p for p in by if p != tgt]:
        txt = rep.get(p) or ''
        if txt:
            first_rule = txt.split(' ')[0]
            break
    if by:
        cell = ', '.join(by) + (f' ({first_rule})' if first_rule else '')
    else:
        cell = '— missed' + (f" (undecided in {', '.join(r.get('undecided') or [])})" if r.get('undecided') else '')
    w(f"| {sid} | {short(meta('seeded', sid).get('summary'), 170)} | {cell} |")
w('')

w('### 12.3 Behaviour-preserving refactorings: the false-alarm side\n')
th = hist.get('twins', {})
w('A check that alarms on code that still satisfies the property is broken, so the same procedure was run for refactorings. '
  'Besides my own 61 twins (`gsa/corpus/twins.py`, all silent) three batches (T, U, V) and a last small sample (W, 10 properties) were written by sub-agents; each was evaluated once '
  'before anything was changed, then used to make the rules independent of spelling (§11.5).\n')
w('| batch | written against | confirmed | first evaluation | final: silent / undecided / false violation |')
w('|---|---|---|---|---|')
tb = defaultdict(list)
for tid in tw:
    tb[tid.split('-')[1][0]].append(tid)
for b in sorted(tb):
    ids = tb[b]
    h = th.get(f'batch_{b}', {})
    fe = h.get('first_evaluation', {})
    n = fe.get('evaluated', len(ids))
    first = f"{fe.get('silent', '?')}/{n} silent" + (f", {fe['false_violation']} with a false VIOLATION" if 'false_violation' in fe else '')
    silent = sum(1 for t in ids if not tw[t])
    und = sum(1 for t in ids if tw[t] and all(c == 2 for c in tw[t].values()))
    fv = sum(1 for t in ids if any(c == 1 for c in tw[t].values()))
    w(f"| {b} | {short(h.get('written_against', ''), 110)} | {len(ids)} | {first} | {silent} / {und} / {fv} |")
n = len(tw)
w(f"| all | | {n} | | {sum(1 for t in tw if not tw[t])} / {sum(1 for t in tw if tw[t] and all(c == 2 for c in tw[t].values()))} / "
  f"{sum(1 for t in tw if any(c == 1 for c in tw[t].values()))} |")
w('')
noisy = [t for t in sorted(tw) if tw[t]]
w(f'Refactorings on which some check does not stay at exit 0 on the final rules ({len(noisy)}):\n')
for t in noisy:
    verdict = ', '.join(f'{p}: {"undecided (exit 2)" if c == 2 else "FALSE VIOLATION (exit 1)"}' for p, c in sorted(tw[t].items()))
    w(f"* **{t}** — {verdict}. {short(meta('twins_indep', t).get('summary'), 230)}")
w('')
w('All of the remaining ones end *undecided*: the rule says it cannot read the rewritten construct (a pipeline of generators over a '
  'NamedTuple, a vectorised pair search with broadcast masks, a state machine over raw numpy rows, an encoder shared by both sides '
  'of the state codec). None is reported as a violation. They are kept in the corpus as they are: an undecided verdict on them is '
  'the honest answer of a static rule that would otherwise have to guess, and a maintainer sees the construct and the rule in the '
  'message (`ANALYSIS-ERROR ... undecided <rule> <file:line> ... [construct]`).\n')
w('The last full evaluation of the 200 refactorings still found one false violation (C15-V2: `Trajectory.split` cutting the parts as '
  '`self[window.head(minsize)]` through a NamedTuple was reported by C19.R4 as overlapping ranges). The rule was corrected to compare '
  'the operands of `start + width` by value (start of the same part, minimum width over the parts) and to answer undecided for a width '
  'of unknown origin; C19 was then re-evaluated on all 440 stored changes (`tools/reeval_prop.py C19`: only that entry changed). The last sample, '
  'batch W (30 refactorings written against the final rules), gave 26 silent, 3 undecided and once more one false violation on first evaluation '
  '(C19-W1: the re-basing written as `part[keys] = part[keys] - offset` instead of `-=` was not recognised by C19.R2, which then claimed that '
  'no re-basing takes place); C19.R2 now reads both spellings and answers undecided when other column writes are present.\n')
w('What the three rounds show: the first-evaluation silent rate on *unseen* refactorings went 16/74 → 16/60 (a harder batch: the '
  'prompt asked for dataclasses, generators, vectorisation) → 34/60, and definite false violations on unseen refactorings went from '
  'the majority of alarms in batch T to 7 of 60 in batch V; all of those were removed by making the rule decide on values or answer '
  'undecided. The detection side did not pay for it: the mutant catalogue stayed at 92/92 and the seeded batches at the rates of '
  '§12.1 (first evaluation of the last batch, written after all robustness work: 48/60).\n')

w('### 12.4 How to re-run\n')
w('```\n/venv/bin/python /verif/tools/mut.py              # 95 single-edit mutants, each must be reported by its property check\n'
  '/venv/bin/python /verif/tools/twins.py -a         # 61 own twins x 20 checks, all must stay silent\n'
  '/venv/bin/python /verif/tools/seedeval.py --kept  # all seeded changes -> seeded/RESULTS.json\n'
  '/venv/bin/python /verif/tools/twineval.py --kept  # 230 independent twins -> twins_indep/RESULTS.json\n'
  '/venv/bin/python /verif/tools/tw.py <dir> C05 C19 # one patch, chosen checks, full report\n```\n'
  'The thorough tier of a property (`check.py Cxx --tier thorough`) runs the quick check, the stub conformance and the property\'s '
  'slice of all four corpora; a corpus entry that no longer behaves as recorded makes the run exit 2.\n')
print('\n'.join(out))
