"""Run the pinned baseline command on a tree and compare with BASELINE.json (not a check; used for fix commits)."""
import json, subprocess, sys, tempfile, os, xml.etree.ElementTree as ET
root = sys.argv[1] if len(sys.argv) > 1 else '/repo'
base = json.load(open('/root/.vp/BASELINE.json'))
with tempfile.TemporaryDirectory() as td:
    xml = os.path.join(td, 'r.xml')
    env = dict(os.environ)
    if root != '/repo':
        env['PYTHONPATH'] = os.path.join(root, 'src')
    subprocess.run(['/venv/bin/python', '-m', 'pytest', '-q', '-p', 'no:cacheprovider', '--timeout=900',
                    '--continue-on-collection-errors', f'--junitxml={xml}'], cwd=root, env=env,
                   stdout=subprocess.DEVNULL, stderr=subprocess.DEVNULL)
    passed = set()
    for tc in ET.parse(xml).getroot().iter('testcase'):
        if not any(c.tag in ('failure', 'error', 'skipped') for c in tc):
            passed.add(f"{tc.get('classname')}::{tc.get('name')}")
missing = [t for t in base['stable_pass'] if t not in passed]
print(f'passed={len(passed)} baseline={len(base["stable_pass"])} missing={len(missing)}')
for m in missing: print('  MISSING', m)
sys.exit(1 if missing else 0)
