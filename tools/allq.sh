#!/bin/bash
# run all 20 quick checks in parallel, print exit codes
cd /verif
for i in $(seq -w 1 20); do ( /venv/bin/python check.py C$i --tier quick > /tmp/allq_C$i.out 2>&1; echo "C$i exit $?" ) & done; wait
grep -l "VIOLATION\|ANALYSIS-ERROR" /tmp/allq_C*.out
