"""Re-evaluate ONE property check on every stored seeded change and twin and patch the two RESULTS.json files accordingly
(used after a change that touches a single rule module).   usage: reeval_prop.py C19"""
import glob, json, os, sys
sys.path.insert(0, '/verif'); sys.dont_write_bytecode = True
from concurrent.futures import ProcessPoolExecutor
from tools.seedeval import patched_sources, run_one

def main():
    props = sys.argv[1:]
    seeds = sorted(os.path.dirname(p) for p in glob.glob('/verif/seeded/*/patch.diff'))
    twins = sorted(os.path.dirname(p) for p in glob.glob('/verif/twins_indep/*/patch.diff'))
    jobs = []
    for d in seeds + twins:
        ov, err = patched_sources(os.path.join(d, 'patch.diff'))
        if ov is not None:
            jobs.append((d, ov))
    with ProcessPoolExecutor(max_workers=15) as pool:
        res_all = {p_: list(pool.map(run_one, [(p_, ov) for d, ov in jobs])) for p_ in props}
    st = json.load(open('/verif/seeded/RESULTS.json'))
    tt = json.load(open('/verif/twins_indep/RESULTS.json'))
    changed = []
    for prop in props:
      res = res_all[prop]
      for (d, ov), (p, code, msg) in zip(jobs, res):
          k = os.path.basename(d)
          if '/seeded/' in d:
              if k not in st:
                  m = json.load(open(os.path.join(d, 'meta.json')))
                  st[k] = dict(target=m.get('property'), caught_by=[], undecided=[], report={})
              r = st[k]
              before = (prop in r['caught_by'], prop in r['undecided'])
              r['caught_by'] = sorted((set(r['caught_by']) - {prop}) | ({prop} if code == 1 else set()))
              r['undecided'] = sorted((set(r['undecided']) - {prop}) | ({prop} if code == 2 else set()))
              r['report'].pop(prop, None)
              if code == 1:
                  r['report'][prop] = msg
              if before != (code == 1, code == 2):
                  changed.append((k, before, code))
          else:
              r = tt[k]
              before = r.get(prop)
              r.pop(prop, None)
              if code != 0:
                  r[prop] = code
              if before != (code if code != 0 else None):
                  changed.append((k, before, code))
    json.dump(st, open('/verif/seeded/RESULTS.json', 'w'), indent=1, sort_keys=True)
    json.dump(tt, open('/verif/twins_indep/RESULTS.json', 'w'), indent=1, sort_keys=True)
    for c in changed:
        print('changed', c)
    print(len(jobs), 'evaluated for', props, '-', len(changed), 'entries changed')

main()
