#!/bin/bash
# run an evaluation tool against a frozen snapshot of the analyser, so that edits made meanwhile do not disturb it
# usage: snaprun.sh <outfile> <tool.py> [args...]   (runs in the background)
OUT=$1; shift
TOOL=$1; shift
SNAP=$(mktemp -d /tmp/gsa_snap.XXXXXX)
cp -r /verif/gsa /verif/tools /verif/known_findings.json /verif/check.py "$SNAP"/
mkdir -p "$SNAP"/seeded; cp /verif/seeded/RESULTS.json "$SNAP"/seeded/ 2>/dev/null
sed -i "s#sys.path.insert(0, '/verif')#sys.path.insert(0, '$SNAP')#" "$SNAP"/tools/*.py
( cd "$SNAP" && /venv/bin/python tools/"$TOOL" "$@" > "$OUT" 2>&1; rm -rf "$SNAP" ) &
