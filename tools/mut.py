"""Run catalogue mutants (notes/mutants.py) in memory against the checks: tools/mut.py [Cxx ...] [-v]"""
import sys, os, io, contextlib
sys.path.insert(0, '/verif'); 
sys.dont_write_bytecode = True
from gsa.corpus.mutants import M
from gsa.driver import run_property
props = [a for a in sys.argv[1:] if a.startswith('C')]
verbose = '-v' in sys.argv
tot = caught = 0
for ent in M:
    mid, prop, rule, file, old, new = ent[:6]
    occ = ent[6] if len(ent) > 6 else 0
    if props and prop not in props: continue
    rel = f'src/gemdat/{file}'
    src = open(f'/repo/{rel}').read()
    if old not in src:
        print(f'{mid} {prop} {rule}: N/A (recipe does not apply)'); continue
    parts = src.split(old)
    msrc = old.join(parts[:occ+1]) + new + old.join(parts[occ+1:])
    # which properties to run: the targeted one (and all if -a)
    run = [prop] if '-a' not in sys.argv else [f'C{i:02d}' for i in range(1,21)]
    res = {}
    for pr in run:
        if not os.path.exists(f'/verif/gsa/rules/{pr}.py'): continue
        code, lines, ctx = run_property(pr, 'quick', '/repo', overrides={rel: msrc}, write=False)
        res[pr] = code
        if verbose and code != 0:
            for l in lines[:4]: print('     ', l[-900:] if 'Traceback' in l else l[:200])
    tot += 1
    hit = any(c == 1 for c in res.values())
    caught += hit
    print(f'{mid} {prop} {rule}: {"CAUGHT" if hit else "missed"} {res}')
print(f'caught {caught}/{tot}')
