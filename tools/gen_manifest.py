"""Generate /verif/MANIFEST.json from the table below + the rule modules present (tools/gen_manifest.py)."""
import json
import os
import sys

VERIF = os.path.dirname(os.path.dirname(os.path.abspath(__file__)))

DECIDES = {
    'C01': ('positions pass a half-open wrap on every path and storage mode; displacements are minimum-image steps; raw .coords '
            'is read only through the accessors or on fresh position-mode objects; cumulative displacements / distances are '
            'built from minimum-image steps with the metric tensor; the volume builder bins wrapped positions',
            'exact equality with the input modulo lattice translations, pymatgen internals (stubbed), rounding at cell faces'),
    'C02': ('coordinates given to the periodic KD tree are in the frame of its box and derived from the same box; aligned '
            'local->global site lookup; outer/inner search are siblings with radius * inner fraction; automatic radius constants; '
            'state array NOSITE-initialised and written at atom indices; exactness precondition of the tree (open finding F15)',
            'tree internals, float32 rounding of the box, uniqueness for user-supplied overlapping radii'),
    'C03': ('no first/last element of a possibly empty change-index array; frame offsets t / t+1 of before/after columns match '
            'the shift direction; the wrap-around pseudo change is removed before t+1 is used; column labels name the kinds of '
            'the stacked rows; previous/next = forward/backward fill of the outer states with NOSITE along frames',
            'that the table holds exactly the changes (counting), arithmetic inside ffill, inner-only changes of atoms whose outer state is constant'),
    'C04': ('same-field copies from the departure event; stop time = t + 1; origins only from real-site departures; minimal '
            'residence only as lower bound of the admitting elapsed-time test',
            'the scanner state machine on all histories (A->none->A, completeness, subset relations)'),
    'C05': ('no possibly-NOSITE value indexes an array/list in any consumer of states/events/jumps; jump diffusivity normal form, '
            'degree and unit; occupancy normalisation; matrices count their own table; label counter and graph built from the index counter',
            'numeric sums, empty diagonal, rates statistics'),
    'C06': ('MSD squares/transforms Cartesian unwrapped displacements and reduces squares over xyz only; metric distance; tracer '
            'diffusivity normal form (mean of squared final distances / (2 d t)), degree and unit',
            'the FFT identity, value at lag 0, windowing'),
    'C07': ('frame-dependent values are consumed only by frame-invariant reducers or a sink expecting that frame; wrapped positions '
            'are consumed only by periodic-safe operations; free-energy graph neighbours wrap modulo the grid; move table symmetric',
            'permutation invariance, equality of results across representations'),
    'C08': ('each axis is binned with its own length, edges and extent; number of bins = extent = L // resolution; digitised indices '
            'fit; voxel<->fraction maps use the same dims and a centre offset in (0,1)',
            'floor vs digitize at rounding distance of an edge, the voxel sum'),
    'C09': ('log of the sum-normalised density; prefactor -T k_B with k_B in eV/K, result in eV; stored array passed a non-finite '
            'sanitiser; graph admission 0 <= F < threshold with finite thresholds',
            'numeric recovery of p'),
    'C10': ('move table = 6 / 26 neighbours up to graph symmetry; every pathfinding method reaches its own handler; per-axis wrapping; '
            'edge/node attribute names agree between writer and reader; percolation target/tiling from the same mask, strict improvement '
            'or min() keyed on the total energy',
            'cost minimality (networkx), the minmax pruning loop'),
    'C11': ('site->label lookup aligned incl. NOSITE; encoder/decoder radix and role order agree; bin count / minlength / dropped '
            'overflow bin agree; minimum-image distances; dimensionless shell normalisation',
            'equality with a brute-force histogram, symmetry of counts, the partition'),
    'C12': ('early loop exit sound for the sort order; same-atom pairs excluded; each unordered pair once; forward window test; '
            'minimum-image distances between the four sites; dimensionless window',
            'nothing numeric beyond the library distances'),
    'C13': ('both ways of naming reference species select through the same kind of key and accept the same species types; drift = '
            'mean over atoms of minimum-image steps; corrected trajectory rebuilt in displacement mode with all metadata',
            'idempotence, invariance under injected rigid drift'),
    'C14': ('homogeneity degree of every metric (scaling laws), normal forms of density/molarity/diffusivity/conductivity, unit labels, '
            'mass-weighted centre of mass, Std variants call and label like their base; speed = first-order difference of the distances '
            'from the base position along frames started from 0 (increments telescope to the final distance)',
            'behavioural identities (the partition of the increments into amplitudes, Haven ratio one for identical motion)'),
    'C15': ('only the mode switches write trajectory storage; no in-place write reaches trajectory storage, cached values or public '
            'attributes; derived trajectories are built from mode-explicit accessors with all metadata; metadata copied on slicing',
            'bit-exactness of the mode round trip, pymatgen slicing (stubbed)'),
    'C16': ('every result-affecting loader parameter reaches the default cache path; same path read and written, written on every '
            'parse path; cache read protected by a broad, non-raising handler that falls through to the parse; pickle identity',
            'pickle round-trip equality, file system behaviour'),
    'C17': ('image correction valid for unwrapped symmetry images; selection by minimum-image distance to the symmetry image; inverse '
            'of the same operation; centring before Cartesian conversion; supercell folding reduce/rescale agree',
            'the number of collected points'),
    'C18': ('bond vectors = two-sided image-corrected difference of wrapped positions, converted with the trajectory lattice; named '
            'axes of normalise / symmetrise / transform; component order of the spherical map; lag-0 normalisation',
            'centre-satellite matching, FFT identity, invertibility'),
    'C19': ('complementary half-open selection of events over one monotone bin sequence; re-basing by the lower bound of the same bin; '
            'states / inner states / trajectories split with the same n; Jumps.split forwards its settings; contiguous frame ranges',
            'counts, coincidence of the three boundary formulas'),
    'C20': ('weak_lru_cache keys on weakref.ref(self) and only dereferences it; no direct functools caches; owners keep identity '
            'semantics; no cached value retains self (open finding F14); hashable parameters; inputs of cached methods written once; '
            'no in-place write into cached values',
            'CPython weakref/lru_cache semantics, eviction order'),
}

TECH = {
    'C01': 'abstract interpretation (geometry kind lattice: frame/wrapping) + who-may-read over the resolved package',
    'C02': 'abstract interpretation (coordinate frame kinds, index kinds) + sibling call agreement + constant extraction',
    'C03': 'abstract interpretation (index/frame-offset kinds, emptiness refinement on branches) + table agreement',
    'C04': 'abstract interpretation of DataFrame column kinds and row roles (NOSITE taint refinement, scanner-state liveness on the CFG) + guard polarity through helper predicates',
    'C05': 'taint analysis (NOSITE index kinds) over all consumers + monomial normal form / unit algebra',
    'C06': 'abstract interpretation (Cartesian/fractional kinds, axis-tracked reductions) + monomial normal form',
    'C07': 'aggregation of geometry-kind obligations over the analysis modules + must-pass-through on the CFG',
    'C08': 'abstract interpretation with per-axis tags (loops over the lattice directions unrolled) + symbolic length / linear-form agreement of edges, extents and (linear) voxel indices',
    'C09': 'monomial/unit algebra + must-pass-through (sanitiser) + constant extraction',
    'C10': 'literal move-table provenance and exhaustiveness + finite value-set propagation through the method dispatch + writer/reader agreement of graph attribute names + memo-key completeness (def-use)',
    'C11': 'table agreement (encoder/decoder, lookup offset) + symbolic length arithmetic + geometry kinds',
    'C12': 'sorted-scan exit rule + guard dominance on the CFG, followed through predicate helpers and generator pipelines + geometry kinds',
    'C13': 'species-kind lattice at membership tests + sibling isinstance agreement + constructor keyword completeness',
    'C14': 'homogeneity-degree and unit inference (monomial normal forms) by abstract interpretation',
    'C15': 'effect/alias analysis: who-may-write + provenance classification of every in-place write in the package',
    'C16': 'dependency (def-use) flow from parameters to cache key + CFG must-pass-through + exception-handler discipline',
    'C17': 'abstract interpretation (wrapping kinds of image-correction operands) + operate/inverse pairing',
    'C18': 'abstract interpretation (image-correction typestate W2->W1->MI) + einsum/axis specification checks',
    'C19': 'abstract interpretation with partition-pair facets (consecutive edges of one sequence, widths, minimum width) + comparison polarity of the window masks + provenance of the pieces handed to each part',
    'C20': 'abstract application of the cache decorator (key must be weakref.ref(self) + arguments) + heap reachability of cached values (escape analysis) + who-may-write on memoised results + memo-key completeness',
}


def build():
    checks, na = [], []
    for i in range(1, 21):
        pid = f'C{i:02d}'
        have = os.path.exists(os.path.join(VERIF, 'gsa', 'rules', f'{pid}.py'))
        if not have:
            na.append(dict(property_id=pid, reason='rules designed (DESIGN.md section 5) but not yet implemented and validated'))
            continue
        dec, und = DECIDES[pid]
        checks.append(dict(
            property_id=pid,
            quick_cmd=f'/venv/bin/python /verif/check.py {pid} --tier quick',
            thorough_cmd=f'/venv/bin/python /verif/check.py {pid} --tier thorough',
            evidence_file=f'/verif/evidence/{pid}.json',
            replay_cmd_template=f'/venv/bin/python /verif/check.py {pid} --replay {{path}}',
            engine='gsa',
            level_claimed=dict(
                category='other',
                text=('Static analysis of structural necessary conditions of the property, for all inputs, on the current source: '
                      + dec + '. A violation is reported only for a definite incompatibility derived from the code; an unrecognised '
                      'construct ends the run as analysis error (exit 2). NOT decided: ' + und + '.'),
                design_ref=f'DESIGN.md section 5 ({pid})'),
            level_note=('Trusted base: the library model gsa/model_*.py (numpy / pymatgen / MDAnalysis / pandas semantics, printed in '
                        'every evidence file) and the interpreter gsa/interp.py. The check decides the listed structural clauses, '
                        'not the numerical behaviour.'),
            technique=TECH[pid],
        ))
    return dict(
        version=1,
        setup_cmd='/venv/bin/python -c "import ast, sys; sys.path.insert(0, \'/verif\'); import gsa.driver; print(\'gsa ready\')"',
        hooks=dict(guard='GEMDAT_VERIF', enable='not used: the static analysis needs no instrumentation in /repo',
                   baseline_off_cmd='cd /repo && /venv/bin/python -m pytest -ra -q -p no:cacheprovider --timeout=900 --continue-on-collection-errors',
                   source_commits=[], add_only=True),
        engines=[dict(name='gsa', path='/verif/gsa', serves_properties=[c['property_id'] for c in checks],
                      kind_free_text='pure-stdlib AST analyser: source model, CFG/dominators, whole-program abstract interpreter '
                                     '(geometry / index / unit-monomial / axis / provenance facets), structural rule modules')],
        checks=checks,
        notes='Fix commits in /repo and open findings are listed in /verif/known_findings.json; see DESIGN.md.',
        not_applicable=na,
    )


if __name__ == '__main__':
    m = build()
    with open(os.path.join(VERIF, 'MANIFEST.json'), 'w') as f:
        json.dump(m, f, indent=1)
    print('checks', len(m['checks']), 'not_applicable', len(m['not_applicable']))
