"""append an entry to known_findings.json: kf.py fixed|open <prop> <key> <what> [commit]"""
import json, sys
st, prop, key, what = sys.argv[1:5]
commit = sys.argv[5] if len(sys.argv) > 5 else None
k = json.load(open('/verif/known_findings.json'))
e = {'status': st, 'property': prop, 'key': key}
if st == 'fixed':
    e['commit'] = commit
    e['what'] = f'fixed: property={prop} {commit} {what}'
else:
    e['what'] = what
k.append(e)
json.dump(k, open('/verif/known_findings.json', 'w'), indent=1)
