"""debug: dump abstract values per line of a function:  tools_dump.py <entry qualname> [<function qualname substring>]"""
import sys, ast
sys.path.insert(0, '/verif')
from gsa.source import Project
from gsa.apimodel import make_interp
ov = None
if '--patch' in sys.argv:
    i = sys.argv.index('--patch')
    from tools.seedeval import patched_sources
    pf = sys.argv[i + 1]
    ov, _ = patched_sources(pf if pf.endswith('.diff') else pf + '/patch.diff')
    del sys.argv[i:i + 2]
p = Project('/repo', overrides=ov)
it = make_interp(p)
entry = sys.argv[1]
r, st = it.run_entry(entry)
print('RESULT', r)
sub = sys.argv[2] if len(sys.argv) > 2 else entry.split('.')[-1]
for q, fi in p.functions.items():
    if sub in q:
        for n in ast.walk(fi.node):
            if isinstance(n, ast.expr) and id(n) in it.values and isinstance(n, (ast.Name, ast.Call, ast.Subscript, ast.BinOp, ast.Attribute, ast.Compare)):
                if isinstance(n, ast.Name) and isinstance(n.ctx, ast.Load): continue
                print(f'{fi.name}:{n.lineno}: {ast.unparse(n)[:70]!r:75} -> {it.values[id(n)]}')
for n in it.notes: print('note', n)
if '-e' in sys.argv:
    for e in it.events:
        if e['tag'] in ('call','extcall','extmethod','index','reduce'): continue
        print('EVENT', e['tag'], e['where'].qualname if e['where'] else None, getattr(e['node'],'lineno',None), {k:v for k,v in e.items() if k not in ('tag','node','where','ctx')})
