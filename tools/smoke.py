import sys, time, traceback, collections
sys.path.insert(0, '/verif')
from gsa.source import Project, AnalysisError
from gsa.apimodel import make_interp
t=time.time()
p = Project('/repo')
print('modules', len(p.modules), 'functions', len(p.functions), 'classes', len(p.classes), 'parse %.2fs'%(time.time()-t))
fails=0; notes=collections.Counter()
only = sys.argv[1:] 
for q, fi in sorted(p.functions.items()):
    if only and not any(o in q for o in only): continue
    if fi.parent is not None: continue
    it = make_interp(p)
    t0=time.time()
    try:
        r, st = it.run_entry(q)
    except Exception as e:
        fails+=1
        print('FAIL', q, type(e).__name__, e)
        if only: traceback.print_exc()
        continue
    dt=time.time()-t0
    for n in it.notes: notes[n[0]]+=1
    if only or dt>0.5:
        print(f'{q}: {r}  steps={it.steps} {dt:.2f}s events={len(it.events)}')
        if only:
            for n in it.notes: print('   note', n)
print('fails', fails, 'total %.1fs'%(time.time()-t))
for k,v in notes.most_common(60): print(v, k)
