#!/bin/bash
# final assembly: DESIGN.md section 12 from the recorded results, MANIFEST, evidence from /repo, schema validation
set -e
cd /verif
/venv/bin/python tools/gen_design_12.py > /tmp/section12.md
/venv/bin/python - <<'EOF'
p = '/verif/DESIGN.md'
s = open(p).read()
k = s.find('\n## 12. ')
if k >= 0:
    s = s[:k]
s = s.rstrip('\n') + '\n\n' + open('/tmp/section12.md').read()
open(p, 'w').write(s)
EOF
/venv/bin/python tools/gen_manifest.py | tail -1
tools/allq.sh | sort | tr '\n' ' '; echo
python3-vt - <<'EOF'
import json, jsonschema, glob
m = json.load(open('/verif/MANIFEST.json'))
jsonschema.validate(m, json.load(open('/root/.vp/MANIFEST.schema.json')))
s = json.load(open('/root/.vp/EVIDENCE.schema.json'))
n = 0
for f in sorted(glob.glob('/verif/evidence/*.json')):
    jsonschema.validate(json.load(open(f)), s)
    n += 1
print('manifest valid,', n, 'evidence files valid')
EOF
