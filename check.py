#!/venv/bin/python
"""Entry point: /venv/bin/python /verif/check.py Cxx --tier quick|thorough  (see gsa/driver.py)."""
import os
import sys

sys.path.insert(0, os.path.dirname(os.path.abspath(__file__)))
sys.dont_write_bytecode = True
from gsa.driver import main  # noqa: E402

if __name__ == '__main__':
    sys.exit(main())
