"""Throw-away probe (design round): homogeneity degrees (dL, dT, dZ) of TrajectoryMetrics methods.

Feasibility check for DESIGN section 5, C14.R1. Not framework code; no check runs it.
It never imports GEMDAT: it parses /repo/src/gemdat/metrics.py with `ast` and evaluates a
degree algebra over the method bodies. Receiver resolutions are hard-coded here; the real
engine derives them from annotations and the call graph.
"""

from __future__ import annotations

import ast
import pathlib
from fractions import Fraction as Fr

SRC = pathlib.Path('/repo/src/gemdat')
POLY = 'POLY'  # literal zero: homogeneous of any degree


def D(length=0, time=0, charge=0):
    return (Fr(length), Fr(time), Fr(charge))


def add(a, b):
    return tuple(x + y for x, y in zip(a, b))


def sub(a, b):
    return tuple(x - y for x, y in zip(a, b))


def mul(a, c):
    return tuple(x * c for x in a)


ATTR = {
    'trajectory.total_time': D(0, 1),
    'trajectory.time_step': D(0, 1),
    'trajectory.sampling_frequency': D(0, -1),
    'trajectory.species': D(),
    'volume': D(3),
}
CONST = {'angstrom': D(), 'Avogadro': D(), 'Boltzmann': D(), 'elementary_charge': D()}
PRESERVE = {
    'np.mean', 'np.std', 'np.sum', 'np.diff', 'np.asarray', 'np.array', 'np.cumsum',
    'np.max', 'np.min', 'float', 'np.array_split', 'np.tile', 'np.roll',
}
issues: list = []


class Interp:
    def __init__(self, methods):
        self.m = methods
        self.cache = {}

    def method(self, name):
        if name in self.cache:
            return self.cache[name]
        fn = self.m[name]
        env = {'self': 'SELF'}
        for a in fn.args.args[1:] + fn.args.kwonlyargs:
            env[a.arg] = D(0, 0, 1) if a.arg == 'z_ion' else D()
        r = self.body(fn.body, env)
        self.cache[name] = r
        return r

    def body(self, stmts, env):
        ret = None
        for st in stmts:
            if isinstance(st, ast.Assign):
                v = self.ev(st.value, env)
                for t in st.targets:
                    if isinstance(t, ast.Name):
                        env[t.id] = v
                    elif isinstance(t, ast.Tuple) and isinstance(v, list):
                        for e, x in zip(t.elts, v):
                            env[e.id] = x
            elif isinstance(st, ast.Return):
                ret = self.ev(st.value, env)
            elif isinstance(st, ast.For):
                it = self.ev(st.iter, env)

                def bind(t, v):
                    if isinstance(t, ast.Name):
                        env[t.id] = v
                    elif isinstance(t, ast.Tuple):
                        if isinstance(v, list):
                            for e, x in zip(t.elts, v):
                                bind(e, x)
                        else:
                            for e in t.elts:
                                bind(e, v)

                bind(st.target, it)
                r = self.body(st.body, env)
                ret = ret or r
            elif isinstance(st, ast.Expr):
                c = st.value
                if (
                    isinstance(c, ast.Call)
                    and isinstance(c.func, ast.Attribute)
                    and c.func.attr in ('extend', 'append')
                    and isinstance(c.func.value, ast.Name)
                ):
                    v = self.ev(c.args[0], env)
                    nm = c.func.value.id
                    old = env.get(nm)
                    env[nm] = v if old in (None, POLY, 'EMPTY') else self.join(old, v, c)
        return ret

    def join(self, a, b, node):
        if a == POLY:
            return b
        if b == POLY:
            return a
        if a != b:
            issues.append((node.lineno, 'degree mismatch', a, b, ast.unparse(node)[:60]))
        return a

    def ev(self, n, env):
        if isinstance(n, ast.Constant):
            return POLY if n.value == 0 else D()
        if isinstance(n, ast.Name):
            if n.id in env:
                return env[n.id]
            return CONST.get(n.id, D())
        if isinstance(n, ast.List):
            return 'EMPTY' if not n.elts else self.ev(n.elts[0], env)
        if isinstance(n, ast.ListComp):
            e2 = dict(env)
            for g in n.generators:
                it = self.ev(g.iter, e2)
                if isinstance(g.target, ast.Name):
                    e2[g.target.id] = it
            return self.ev(n.elt, e2)
        if isinstance(n, ast.Tuple):
            return [self.ev(e, env) for e in n.elts]
        if isinstance(n, ast.Attribute):
            txt = ast.unparse(n)
            for k, v in ATTR.items():
                if txt.endswith(k):
                    return v
            if n.attr == 'T':
                return self.ev(n.value, env)
            return D()
        if isinstance(n, ast.Subscript):
            return self.ev(n.value, env)
        if isinstance(n, ast.UnaryOp):
            return self.ev(n.operand, env)
        if isinstance(n, ast.BinOp):
            a = self.ev(n.left, env)
            b = self.ev(n.right, env)
            if isinstance(n.op, (ast.Add, ast.Sub)):
                return self.join(a, b, n)
            a = D() if a == POLY else a
            b = D() if b == POLY else b
            if isinstance(n.op, ast.Mult):
                return add(a, b)
            if isinstance(n.op, ast.Div):
                return sub(a, b)
            if isinstance(n.op, ast.Pow):
                assert isinstance(n.right, ast.Constant)
                return mul(a, Fr(n.right.value))
            return a
        if isinstance(n, ast.Compare):
            a = self.ev(n.left, env)
            for c in n.comparators:
                self.join(a, self.ev(c, env), n)
            return D()
        if isinstance(n, ast.Call):
            fn = ast.unparse(n.func)
            if fn.startswith('self.') and fn[5:] in self.m:
                return self.method(fn[5:])
            if fn == 'self.trajectory.distances_from_base_position':
                return D(1)
            if fn == 'self.trajectory.get_lattice':
                return 'LATTICE'
            if fn == 'self.trajectory.center_of_mass':
                return 'TRAJ'
            if fn == 'TrajectoryMetrics':
                return 'METRICS'
            if fn == 'metrics.tracer_diffusivity':
                return self.method('tracer_diffusivity')
            if fn == 'FloatWithUnit':
                return self.ev(n.args[0], env)
            if fn == 'len':
                return D()
            if fn == 'enumerate':
                return [D(), self.ev(n.args[0], env)]
            if fn == 'np.sign':
                return D()
            if fn == 'np.where':
                return [D()]
            if fn == 'meanfreq':
                x = self.ev(n.args[0], env)
                fs = [self.ev(k.value, env) for k in n.keywords if k.arg == 'fs'][0]
                # periodogram: f ~ fs, Pxx ~ x^2/fs; P = Pxx*width ~ x^2; mean freq = P.f/sum(P) ~ fs
                P = add(sub(mul(x, 2), fs), fs)
                return sub(add(P, fs), P)
            if fn in PRESERVE:
                return self.ev(n.args[0], env)
            issues.append((n.lineno, 'unmodelled call', fn))
            return D()
        issues.append((getattr(n, 'lineno', 0), 'unmodelled node', type(n).__name__))
        return D()


def main():
    mod = ast.parse((SRC / 'metrics.py').read_text())
    cls = [c for c in mod.body if isinstance(c, ast.ClassDef) and c.name == 'TrajectoryMetrics'][0]
    methods = {f.name: f for f in cls.body if isinstance(f, ast.FunctionDef)}
    interp = Interp(methods)
    expect = {
        'particle_density': D(-3),
        'mol_per_liter': D(-3),
        'tracer_diffusivity': D(2, -1),
        'tracer_diffusivity_center_of_mass': D(2, -1),
        'haven_ratio': D(),
        'tracer_conductivity': D(-1, -1, 2),
        'attempt_frequency': [D(0, -1), D(0, -1)],
        'vibration_amplitude': D(1),
        'amplitudes': D(1),
        'speed': D(1),
    }
    for name, exp in expect.items():
        got = interp.method(name)
        fmt = lambda d: [tuple(map(str, x)) for x in d] if isinstance(d, list) else tuple(map(str, d))  # noqa: E731
        print(f'{name:36s} got={fmt(got)!s:44s} {"OK" if got == exp else "MISMATCH exp=" + str(fmt(exp))}')
    print('issues:', issues)


if __name__ == '__main__':
    main()
