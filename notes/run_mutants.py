"""One-off measurement (design/implementation aid, NOT a check): which catalogue variants in
notes/mutants.py still pass the 66 baseline tests. Works on scratch copies under a temporary
directory outside /repo and /verif and removes them. Usage:
    /venv/bin/python notes/run_mutants.py [ids...]  ->  writes notes/mutants_suite_result.json
"""
from __future__ import annotations

import json
import os
import shutil
import subprocess
import sys
import tempfile
import xml.etree.ElementTree as ET
from concurrent.futures import ThreadPoolExecutor
from pathlib import Path

sys.path.insert(0, str(Path(__file__).parent))
from mutants import M  # noqa: E402

REPO = Path('/repo')
BASE = json.load(open('/root/.vp/BASELINE.json'))
STABLE = set(BASE['stable_pass'])


def run_one(entry, root: Path):
    mid, prop, rule, fname, old, new, *rest = entry
    occ = rest[0] if rest else 0
    work = root / mid
    work.mkdir()
    subprocess.run(f'git -C {REPO} archive HEAD | tar -x -C {work}', shell=True, check=True)
    target = work / 'src' / 'gemdat' / fname
    text = target.read_text()
    if text.count(old) <= occ:
        shutil.rmtree(work)
        return mid, {'property': prop, 'rule': rule, 'file': fname, 'status': 'recipe-does-not-apply'}
    parts = text.split(old)
    text2 = old.join(parts[: occ + 1]) + new + old.join(parts[occ + 1 :])
    target.write_text(text2)
    try:
        compile(text2, str(target), 'exec')
    except SyntaxError as exc:
        shutil.rmtree(work)
        return mid, {'property': prop, 'rule': rule, 'file': fname, 'status': f'syntax-error: {exc}'}
    junit = work / 'junit.xml'
    env = dict(os.environ, PYTHONPATH=str(work / 'src'), PIP_NO_INDEX='1')
    subprocess.run(
        ['/venv/bin/python', '-m', 'pytest', '-q', '-p', 'no:cacheprovider', '--timeout=900',
         '--continue-on-collection-errors', f'--junitxml={junit}'],
        cwd=work, env=env, stdout=subprocess.DEVNULL, stderr=subprocess.DEVNULL,
    )
    passed = set()
    if junit.exists():
        for tc in ET.parse(junit).iter('testcase'):
            if not any(ch.tag in ('failure', 'error', 'skipped') for ch in tc):
                passed.add(tc.get('classname') + '::' + tc.get('name'))
    missing = sorted(STABLE - passed)
    shutil.rmtree(work)
    return mid, {
        'property': prop, 'rule': rule, 'file': fname,
        'status': 'passes-suite' if not missing else 'caught-by-suite',
        'failing_baseline_tests': missing,
    }


def main():
    want = set(sys.argv[1:])
    entries = [e for e in M if not want or e[0] in want]
    root = Path(tempfile.mkdtemp(prefix='gemdat-mut-'))
    try:
        with ThreadPoolExecutor(max_workers=14) as ex:
            results = dict(ex.map(lambda e: run_one(e, root), entries))
    finally:
        shutil.rmtree(root, ignore_errors=True)
    out = Path(__file__).parent / 'mutants_suite_result.json'
    out.write_text(json.dumps(results, indent=1, sort_keys=True))
    n_pass = sum(r['status'] == 'passes-suite' for r in results.values())
    print(f'{len(results)} variants: {n_pass} pass the 66 baseline tests, '
          f'{sum(r["status"] == "caught-by-suite" for r in results.values())} caught, '
          f'{sum(r["status"] not in ("passes-suite", "caught-by-suite") for r in results.values())} not applicable')
    for k, r in sorted(results.items()):
        if r['status'] != 'passes-suite':
            print(' ', k, r['property'], r['rule'], r['status'], r.get('failing_baseline_tests', [])[:3])


if __name__ == '__main__':
    main()
