import numpy as np, pandas as pd, warnings
warnings.filterwarnings('ignore')
from pymatgen.core import Lattice, Structure
from gemdat.collective import Collective
lat=Lattice.cubic(10)
sites=Structure(lat,['Li']*4,[[0.1,0.1,0.1],[0.15,0.1,0.1],[0.12,0.1,0.1],[0.17,0.1,0.1]])
class J: pass
j=J()
# jump0: atom0 stops at t=10. jump1: atom1 short jump start=100 stop=101. jump2: atom2 long transit start=50 stop=200
j.data=pd.DataFrame({'atom index':[0,1,2],'start site':[0,1,2],'destination site':[1,0,3],'start time':[5,100,50],'stop time':[10,101,200]})
c=Collective(jumps=j,sites=sites,lattice=lat,max_steps=60,max_dist=2.0)
print('pairs found:',[(int(a['atom index']),int(b['atom index'])) for a,b in c.collective], 'n_coll',c.n_coll_jumps)
# brute force per the property
d=j.data; exp=[]
for a in range(3):
    for b in range(a+1,3):
        A,B=d.iloc[a],d.iloc[b]
        if A['atom index']==B['atom index']: continue
        if B['start time']-A['stop time']>60 or A['start time']-B['stop time']>60: continue
        exp.append((a,b))
print('expected (time window; all sites within 2A):',exp)
