"""Triage input for F15: MDAnalysis' PeriodicKDTree vs pymatgen minimum-image distances,
per crystal system, with coordinates already expressed in the tree's own box frame."""
import warnings

import numpy as np
from MDAnalysis.lib.mdamath import triclinic_vectors
from MDAnalysis.lib.pkdtree import PeriodicKDTree
from pymatgen.core import Lattice

warnings.filterwarnings('ignore')
rng = np.random.default_rng(3)


def run(name, gen, n=60):
    miss = extra = tot = 0
    for _ in range(n):
        lat = gen()
        box = np.array(lat.parameters, dtype=np.float32)
        M = triclinic_vectors(box, dtype=np.float64)
        A = rng.random((300, 3))
        B = rng.random((8, 3))
        r = 0.9
        dp = lat.get_all_distances(A, B)
        tree = PeriodicKDTree(box=box)
        tree.set_coords(A @ M, cutoff=r)
        got = set(map(tuple, tree.search_tree(B @ M, r)))
        exp = {(j, i) for i in range(len(A)) for j in range(len(B)) if dp[i, j] < r - 1e-5}
        expmax = {(j, i) for i in range(len(A)) for j in range(len(B)) if dp[i, j] < r + 1e-5}
        miss += len(exp - got)
        extra += len(got - expmax)
        tot += len(exp)
    print(f'{name:28s} pairs={tot} missing={miss} extra={extra}')


def u(lo, hi):
    return rng.uniform(lo, hi)


run('orthorhombic', lambda: Lattice.from_parameters(u(4, 9), u(4, 9), u(4, 9), 90, 90, 90))
run('hexagonal g=120', lambda: Lattice.from_parameters(*(lambda a: (a, a, u(4, 9)))(u(4, 9)), 90, 90, 120))
run('monoclinic b in 95..115', lambda: Lattice.from_parameters(u(4, 9), u(4, 9), u(4, 9), 90, u(95, 115), 90))
run('rhombohedral a=60', lambda: Lattice.from_parameters(*(lambda a: (a, a, a))(u(5, 9)), 60, 60, 60))
run('triclinic 65..115', lambda: Lattice.from_parameters(u(4, 9), u(4, 9), u(4, 9), u(65, 115), u(65, 115), u(65, 115)))
run('triclinic 55..125', lambda: Lattice.from_parameters(u(4, 9), u(4, 9), u(4, 9), u(55, 125), u(55, 125), u(55, 125)))
