import numpy as np, warnings
warnings.filterwarnings('ignore')
from pymatgen.core import Lattice, PeriodicSite
from pymatgen.symmetry.groups import SpaceGroup
from gemdat.shape import ShapeAnalyzer
lat=Lattice.cubic(10.0)
sg=SpaceGroup('P-1')
site=PeriodicSite('Li',[0.99,0.5,0.5],lat)
sa=ShapeAnalyzer(sites=[site],lattice=lat,spacegroup=sg)
pos=np.array([[0.995,0.5,0.5]])
sh=sa.analyze_positions(pos,radius=1.0)[0]
print(sh.coords, sh.distances())
