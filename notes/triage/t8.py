import numpy as np, warnings, os
warnings.filterwarnings('ignore')
from pymatgen.core import Lattice, Structure
from pymatgen.io.lammps.data import LammpsData
from gemdat.trajectory import Trajectory
lat=Lattice.cubic(5.0)
s=Structure(lat,['Li','S'],[[0.1,0.1,0.1],[0.5,0.5,0.5]])
LammpsData.from_structure(s,atom_style='atomic').write_file('lmp/data.lmp')
with open('lmp/traj.xyz','w') as f:
    for t in range(3):
        f.write('2\nframe\n')
        f.write(f'1 {0.5+0.1*t} 0.5 0.5\n2 2.5 2.5 2.5\n')
a=Trajectory.from_lammps(coords_file='lmp/traj.xyz',data_file='lmp/data.lmp',temperature=300,time_step=1,type_mapping={'1':'Li','2':'S'})
print('first :',[str(x) for x in a.species], sorted(os.listdir('lmp')))
b=Trajectory.from_lammps(coords_file='lmp/traj.xyz',data_file='lmp/data.lmp',temperature=300,time_step=1,type_mapping={'1':'Na','2':'Cl'})
print('second:',[str(x) for x in b.species], sorted(os.listdir('lmp')))
