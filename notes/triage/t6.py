import numpy as np, warnings
warnings.filterwarnings('ignore')
from pymatgen.core import Lattice, Species, Element
from gemdat.trajectory import Trajectory
rng=np.random.default_rng(0)
pos=np.mod(0.5+np.cumsum(rng.normal(0,0.01,(20,4,3)),axis=0),1)
for mk in (Species, Element):
    t=Trajectory(species=[mk('Li'),mk('Li'),mk('S'),mk('P')],coords=pos,lattice=np.eye(3)*5,time_step=1)
    try:
        d1=t.drift(fixed_species=['S','P'])
        d2=t.drift(floating_species=['Li'])
        print(mk.__name__, np.allclose(d1,d2), d2.shape)
    except Exception as e:
        print(mk.__name__, type(e).__name__, e)
print('Si' in {Species('Si')}, hash('Si')==hash(Species('Si')))
t=Trajectory(species=[Species('Li'),Species('Li'),Species('S'),Species('P')],coords=pos,lattice=np.eye(3)*5,time_step=1)
d=t.drift(floating_species='Li')
print(d[:3,0])
print(t.drift(fixed_species=['S','P'])[:3,0])
c=t.apply_drift_correction(floating_species='Li')
print(np.abs(c.drift(fixed_species=['S','P'])).max())
