import numpy as np, warnings
warnings.filterwarnings('ignore')
from pymatgen.core import Lattice, Structure, Species
from gemdat.trajectory import Trajectory
from gemdat.transitions import _calculate_transition_events, _calculate_atom_states, _calculate_transitions_matrix, Transitions
import pandas as pd

print("--- C01: np.mod(-1e-17,1)")
t = Trajectory(species=[Species('Li')], coords=np.array([[[ -1e-17,0,0]],[[0.1,0,0]]]), lattice=np.eye(3)*5, time_step=1)
print(t.positions.max(), t.positions.max() < 1)
try:
    t.to_volume()
except AssertionError as e: print("to_volume AssertionError")

print("--- C03: i2 empty")
s = np.array([[0],[0],[-1],[1],[1]])
inner = np.full_like(s, -1)
try:
    print(_calculate_transition_events(atom_sites=s, atom_inner_sites=inner))
except Exception as e: print(type(e).__name__, e)
print("--- C03: outer constant, inner changes")
s = np.array([[0,0],[0,1],[0,1],[0,-1],[0,1]])
inner = np.array([[-1,0],[0,1],[-1,1],[0,-1],[0,1]])
ev=_calculate_transition_events(atom_sites=s, atom_inner_sites=inner)
print(ev)

print("--- C05: matrix with NOSITE")
ev = pd.DataFrame({'atom index':[0,0],'start site':[0,-1],'destination site':[-1,1],'time':[1,2]})
print(_calculate_transitions_matrix(ev, n_sites=3))
