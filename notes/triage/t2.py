import numpy as np, warnings
warnings.filterwarnings('ignore')
from pymatgen.core import Lattice, Structure, Species
from gemdat.trajectory import Trajectory
from gemdat.transitions import _calculate_atom_states

def brute(lattice, sites_frac, pos, radius):
    out = np.full(pos.shape[:2], -1)
    for t in range(pos.shape[0]):
        d = lattice.get_all_distances(pos[t], sites_frac)
        for a in range(pos.shape[1]):
            w = np.where(d[a] < radius)[0]
            if len(w): out[t,a] = w[np.argmin(d[a][w])]
    return out

rng = np.random.default_rng(0)
print('--- C02: rotated cubic lattice')
a=6.0
th=np.deg2rad(30)
R=np.array([[np.cos(th),-np.sin(th),0],[np.sin(th),np.cos(th),0],[0,0,1]])
for name,mat in [('aligned', np.eye(3)*a), ('rotated', (np.eye(3)*a)@R.T), ('triclinic-pmg', Lattice.from_parameters(5,6,7,70,80,100).matrix)]:
    lat=Lattice(mat)
    sites_frac=np.array([[0.02,0.5,0.5],[0.5,0.02,0.5],[0.5,0.5,0.98],[0.25,0.25,0.25]])
    sites=Structure(lat,['Li']*4,sites_frac)
    pos=rng.random((50,3,3))
    # place some atoms close to sites through the boundary
    pos[:,0,:]=np.mod(sites_frac[0]+rng.normal(0,0.03,(50,3)),1)
    pos[:,1,:]=np.mod(sites_frac[2]+rng.normal(0,0.03,(50,3)),1)
    traj=Trajectory(species=[Species('Li')]*3, coords=pos, lattice=lat, time_step=1)
    st=_calculate_atom_states(sites, traj, {'':0.8})
    ref=brute(lat,sites_frac,traj.positions,0.8)
    print(name, 'mismatches', (st!=ref).sum(), 'of', st.size)

print('--- C02: integer_remap with never-visited group member')
lat=Lattice(np.eye(3)*10)
sites_frac=np.array([[0.1,0.1,0.1],[0.5,0.5,0.5],[0.9,0.9,0.9],[0.3,0.7,0.3]])
sites=Structure(lat,['Li']*4,sites_frac,labels=['A','B','A','A'])
pos=np.array([[[0.9,0.9,0.9],[0.3,0.7,0.3]]]*3)   # atoms at site 2 and 3 (both 'A'); site 0 never visited
traj=Trajectory(species=[Species('Li')]*2, coords=pos, lattice=lat, time_step=1)
print(_calculate_atom_states(sites, traj, {'A':0.5,'B':0.5}))
