import numpy as np, warnings, gc, weakref
warnings.filterwarnings('ignore')
from pymatgen.core import Lattice, Structure, Species, PeriodicSite
from pymatgen.symmetry.groups import SpaceGroup
from gemdat.shape import ShapeAnalyzer
print('--- C17 shape images')
lat=Lattice.cubic(10.0)
sg=SpaceGroup('P-1')
site=PeriodicSite('Li',[0.9,0.5,0.5],lat)
sa=ShapeAnalyzer(sites=[site],lattice=lat,spacegroup=sg)
# inversion image of site: (-0.9,-0.5,-0.5) == (0.1,0.5,0.5). position near it: (0.12,0.5,0.5) 
pos=np.array([[0.12,0.5,0.5],[0.93,0.5,0.5]])
sh=sa.analyze_positions(pos,radius=1.0)[0]
print(sh.coords, sh.distances())
print('--- C20 collective retains jumps')
from gemdat.trajectory import Trajectory
from gemdat.transitions import Transitions
import pandas as pd
rng=np.random.default_rng(1)
lat=Lattice(np.eye(3)*8)
sites=Structure(lat,['Li']*2,[[0.25,0.25,0.25],[0.75,0.75,0.75]])
n=200
pos=np.zeros((n,2,3))
for a in range(2):
    which=(np.arange(n)//(20+5*a))%2
    pos[:,a,:]=np.where(which[:,None]==0,0.25,0.75)+rng.normal(0,0.01,(n,3))
traj=Trajectory(species=[Species('Li')]*2,coords=pos,lattice=lat,time_step=1e-15,metadata={'temperature':300})
tr=traj.transitions_between_sites(sites,'Li',site_radius=1.0)
j=tr.jumps()
print('n_jumps',j.n_jumps)
c=j.collective()
r=weakref.ref(j)
del j,c
gc.collect()
print('Jumps alive after del+gc:', r() is not None)
t2=tr
m=tr.matrix(); r2=weakref.ref(tr)
