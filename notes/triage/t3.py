import numpy as np, warnings, gc, weakref
warnings.filterwarnings('ignore')
from pymatgen.core import Lattice, Structure, Species
from gemdat.path import Pathway, free_energy_graph, optimal_path
print('--- C10 wrapped_sites')
p=Pathway(sites=[(7,9,11)], energy=[0.], dims=(4,10,12))
print(p.wrapped_sites(), p.frac_sites())
print('--- C10 minmax dead')
F=np.array([[[1.,5,1],[1,3,1],[1,3,1]]]).reshape(3,3,1) if False else None
# 2D-ish grid 1 x 3 x 4 : construct so dijkstra path != minmax path
F=np.full((1,3,5), 50.0)
# route A (row 0): energies 1, 9, 1 -> sum small? route B (row 1): 4,4,4,... 
F[0,0,:]=[0.1,0.1,9.0,0.1,0.1]
F[0,1,:]=[4,4,4,4,4]
F[0,2,:]=[40,40,40,40,40]
G=free_energy_graph(F, max_energy_threshold=45, diagonal=False)
for m in ['dijkstra','minmax-energy']:
    pth=optimal_path(G,start=(0,0,0),stop=(0,0,4),method=m)
    print(m, pth.sites, max(pth.energy), pth.total_energy)
print('--- C10 movement table')
import ast, inspect
G=free_energy_graph(np.zeros((3,3,3)), diagonal=True)
print('degree', {d for _,d in G.degree()})
print(G.has_edge((1,1,1),(2,2,0)), G.has_edge((1,1,1),(2,2,2)), G.has_edge((1,1,1),(2,0,2)), G.has_edge((1,1,1),(0,2,2)))
